"""Writes /verif/MANIFEST.json from the table below (kept valid at all times)."""
import json
import os

VERIF = os.path.dirname(os.path.dirname(os.path.dirname(os.path.abspath(__file__))))

COMMON_NOTE = ("Trusted base: Coq 8.16.1 kernel + vm_compute (no native_compute, no extraction); axioms as printed by Print "
               "Assumptions for each theorem file (recorded per run in the evidence file; allow-list = the three real-number "
               "axioms of the standard library + classic); the tie between model and /repo (translator and/or correspondence "
               "harness under tools/); numeric kernels (LAPACK, scipy, ASE, spglib), IEEE rounding, CPython and the OS are "
               "modelled, not verified. ")

CLAIMED = {
 "C08": dict(
  text="Theorems over the reals about _normalise_euler_angles and _equivalent_euler REGENERATED from soprano/nmr/utils.py on every run, for both axis conventions "
       "(ZYZ, ZXZ) and both senses: the folding into the NMR ranges only moves the angles inside their coset of the four 180-degree flips of the principal axes, so "
       "the tensor rebuilt from the normalised angles equals the tensor rebuilt from the raw angles for ANY principal values (active R D R^T, passive R^T D R); the "
       "result lies in alpha in [0,2pi), beta in [0,pi/2+eps], gamma in [-eps,pi) (mirrored for passive), eps being the code's own boundary tolerance; each of the "
       "four listed equivalent sets differs from the input by one of the four DISTINCT flips (every row proved), hence reproduces the tensor; axially symmetric "
       "tensors are reproduced with the free third angle set to zero and isotropic ones by any angles (orthogonality of the rotation matrices). Tied to the code by "
       "regeneration + correspondence of the generated functions with the Python ones on k*pi/12 triples, and a reconstruction oracle on NMRTensor.euler_angles "
       "(generic, axial, isotropic, near-degenerate, gimbal orientations x 4 orders x 2 conventions x active/passive: reconstruction, ranges, equivalents, "
       "degrees vs radians, right-handedness of the stored frame).",
  note="PARTIAL: scipy Rotation (from_matrix / as_euler / from_euler) is an oracle; the closed-form edge-case branch (_handle_euler_edge_cases, unique axis along x) and "
       "the pipeline as a whole are judged by the reconstruction oracle only. Known finding C08-F08a: PASSIVE angles of axially symmetric tensors (crash or no "
       "reproduction, left-handed stored frame) - recorded, not repaired (the branch is pinned by tabulated values in the existing tests).",
  technique="Coq proof (Reals; trigonometric rewriting + ring, lra over case splits) over functions regenerated from source (py2v) + correspondence + reconstruction oracle",
  design="§8 C08"),
 "C09": dict(
  text="Theorems over the reals about _equivalent_relative_euler REGENERATED from soprano/nmr/utils.py on every run (ZYZ and ZXZ, active and passive): each of the "
       "sixteen listed sets is proved equal to S_b . M . S_a for a NAMED pair of 180-degree flips of B's and A's principal axes, the sixteen pairs are pairwise "
       "distinct (so the table is exactly the D2 x D2 double coset; a mistyped or duplicated row breaks a lemma), and every member of the double coset maps a "
       "principal-value matrix onto the same tensor up to a flip of the target frame. Tied to the code by regeneration + correspondence with the Python function on "
       "k*pi/12 triples and a double-coset oracle on euler_to / equivalent_euler_to of the real class: generic pairs (all 17 angle sets satisfy M = S_b (R_B^T R_A) "
       "S_a), identical and aligned pairs (zero angles / a flip), and - when a partner is axially symmetric - the component of the other tensor along the symmetry axis.",
  note="PARTIAL: the pipeline (rotation_to, the degenerate branches with arcsin closed forms, _tryallanglestest) is not modelled; for an axially symmetric partner only "
       "the clause the statement makes (the component along the symmetry axis) is demanded. 'The rotation defined by the angles' is read modulo the flips of both "
       "principal frames. scipy Rotation is an oracle.",
  technique="Coq proof (Reals; trigonometric rewriting + ring) over tables regenerated from source (py2v) + correspondence + double-coset oracle",
  design="§8 C09"),
 "C05": dict(
  text="Representation independence is proved, axiom-free over Z, at the level of the specifications that the exactness theorems of C03 / C04 / C07 / C11 are "
       "stated against: moving an atom by a lattice vector only re-labels the periodic images of its pair vectors and leaves the minimum-image length "
       "unchanged; a unimodular re-description L' = U L (integer inverse) has the same periodic images of every vector; rotating structure and cell by an "
       "orthogonal integer matrix leaves every image length unchanged; a rigid translation cancels in every pair difference. Since the code's bond list, "
       "minimum images, RSS image sets and periodic selections are proved equal to those specifications (C03/C04/C07/C11), they inherit the invariance. "
       "Tied to the code by a metamorphic run on the real API: LinkageList, Bonds (lengths, element pairs), molecule count and masses, hydrogen-bond counts, "
       "dipolar couplings, dipolar RSS, periodic sphere selection and LatticeABC under rigid translation, the 48 exact rotations, generic rotations, per-atom "
       "lattice shifts in [-3,3]^3, atom permutations, 12 unimodular cell transformations and supercells up to 2x2x2 (extensive counts x n, per-site values "
       "and distinct bond lengths unchanged).",
  note="PARTIAL: the supercell clause (counts x n, unchanged per-site values) and generic (non-integer) rotations are differential tests only; molecule counts are "
       "compared only when every molecule is finite (infinite chains / networks do not multiply in any implementation), and cells with a lattice vector "
       "shorter than the largest vdW contact are excluded (an atom in contact with its own periodic copy is not an atom pair i<j). Thresholded observables "
       "use cutoffs / radii that never tie with distances between integer sites.",
  technique="Coq proof (Z, ring/lia, no axioms) of spec-level invariance inherited through the exactness theorems + metamorphic differential testing on the real API",
  design="§8 C05"),
 "C04": dict(
  text="Axiom-free theorems over Z about a hand model of _compute_bonds / Bonds.extract / Molecules.extract built on the C03 lattice model: for any "
       "non-singular cell, pbc mask, atoms stored in ANY periodic image and any non-negative radii, the bond list is exactly the pairs i<j and cells c with "
       "2|x_j + cL - x_i| <= R_i + R_j, each with that cell and squared length (sound and complete, via the C03 all-images theorem), and the bond matrix is "
       "its symmetric projection; for ANY bond list the queue-based traversal terminates within its fuel, every atom belongs to exactly one molecule "
       "(Permutation of 0..N-1), every molecule is closed under bonding (bonded atoms share a molecule; invariant proved over the traversal), every member "
       "is joined to the molecule's first atom by a chain of bonds (so the molecules are exactly the connected components), and the recorded cell offsets "
       "add up along such a chain (molecules_offsets). Tied to "
       "the code by exact correspondence (bond tuples incl. cells and lengths in order; molecules incl. atom order, cell offsets and neighbour lists on the "
       "implementation's own bond list) and oracles: brute-force contact set, union-find components, potential-consistency of the stored offsets and bond "
       "lengths after subset(use_cell_indices) for finite molecules, real radii tables x scale x default incl. elements without tabulated radii.",
  note="PARTIAL: that a finite molecule's offsets are consistent along every bond (not only along the traversal's tree) is decided by an oracle. Real "
       "(non-half-integer) radii are compared numerically with margins away from the threshold. Three defects found by this check were repaired (b2e8154, "
       "67e456d, 4ae34c7).",
  technique="Coq proof (Z, lists, Permutation, no axioms; invariant over the BFS traversal) of a hand model reusing the C03 theorems + exact correspondence + brute-force / union-find oracles",
  design="§8 C04"),
 "C15": dict(
  text="Theorems about a hand model of NMRTensor arithmetic and averaging (class tag, 3x3 data, initialisation parameters): negation, scaling, addition and "
       "subtraction return the class and ALL parameters of the handling operand with data = the matrix operation; same-class operands with any differing "
       "parameter are refused, with equal parameters never; a returned mean has the class/metadata of the first tensor, data = weighted mean matrix of all "
       "listed tensors, one weight per tensor, only tensors of equal metadata; over the reals each entry of the weighted mean depends only on weight "
       "ratios, ignores zero-weight entries, is the identity on one tensor and linear in the data. Tied to the code by correspondence (T+U / T-U including "
       "refusals, flat weighted means on dyadic data: exact) and an oracle on the three classes with random metadata over every operator form (both operand "
       "orders, Python and numpy scalars, 3x3 arrays, vectors, wrong shapes, foreign operands), nestings of depth 1-3 up to 4x4x3 x axis x weights (uniform, "
       "positive, with zeros) against numpy averages, and collection-level mean properties against the property of the mean tensor.",
  note="Mixed-class operands: numpy hands the call to the more specific class; the result then carries that operand's class and metadata (accepted). Nested "
       "means are judged against numpy, only flat means go through the Coq model. Two defects found by this check were repaired (numpy integer scalars; "
       "nested / depth-3 means).",
  technique="Coq proof (records/lists, Reals field) of a hand model + differential correspondence (exact on dyadic data) + numpy oracle",
  design="§8 C15"),
 "C16": dict(
  text="Theorems over the reals about a hand model of Translate / Rotate / Mirror (ASE's quaternion rotation matrix written out): exactly the selected atoms "
       "are moved, the others untouched, none added or lost; translation, point mirror, plane mirror and rotation by a unit quaternion about a centre are "
       "isometries with the stated inverses / involutions and fixed sets, and ANY non-zero multiple of (normal, offset) defines the same plane mirror; "
       "linear interpolation hits both end points; a uniform rattle stays within its amplitude. Axiom-free: itertools-order combinations are exactly the "
       "subsequences of the selection of the requested size, each once, C(N,n) in all. Tied to the code by correspondence (transform outputs vs the model in "
       "exact rationals, substitution sites in order) and oracles: purity by snapshots, inverse motions, scaled coordinates with atoms outside the cell, "
       "linspaceGen end points / straight line / nearest-image target by exact minimum image, rattleGen bounds for scalar/N/Nx3 amplitudes, Poisson-sphere "
       "minimum distances under periodic boundaries and contact distance to atoms, reseed reproducibility of every stochastic generator.",
  note="The periodic interpolation target is proved over the C03 lattice model (props/C16/periodic_interpolation.v: end points, nearest image, equal steps) and "
       "tied by the squared travel of every atom. PARTIAL: reseed reproducibility and the Poisson-sphere guarantee of the Bridson sampler are decided by run-twice / "
       "exact-distance oracles only (no theorem about the sampler or its neighbour masks). ase.Atoms copying is exercised, not modelled. Translate.get(..., "
       "selection=...) is not used (keyword clash with AtomsProperty.get, F-16c noted in DESIGN); the instance-call form is. Three defects found by this check "
       "were repaired (88b4609, ea27770, 3e5dd31).",
  technique="Coq proof (Reals ring/field/nra; lists, no axioms for combinations) of hand models + differential correspondence + exact and run-twice oracles",
  design="§8 C16"),
 "C11": dict(
  text="Axiom-free theorems over Z about a hand model of the pair enumeration of DipolarCoupling and of the image set of DipolarRSS: (a,b) is a key iff "
       "a<=b, it joins an atom of one selection with an atom of the other, a<>b unless self-coupling, same element if isonuclear; keys are not repeated; the "
       "set does not depend on which selection comes first; processing in blocks of any size >= 1 is processing the whole list (block-size independence then "
       "follows from the per-vector exactness of the minimum-image search, theorem C03 minimum_periodic_exact incl. exclude_self); the RSS image set is "
       "exactly the periodic images at 0 < r <= cutoff for atoms stored in any image (C03 box theorem). Over the reals: for every d and unit vector r the "
       "tensor is symmetric, traceless, has r as eigenvector with 2d and every perpendicular vector with -d; rotational averaging gives the same form about "
       "the axis with d scaled by (3cos^2-1)/2 and keeps the axial component. Tied to the code by correspondence (pair sets as sets, RSS image counts) and "
       "by an oracle on integer-coordinate periodic structures: constants against -mu0 hbar gi gj/(8 pi^2 r^3) on the EXACT nearest-image distance "
       "(self pairs: nearest copy), direction lower->higher index along that image, tensors, rotation axes, block sizes {1,2,7,1000}, swapped selections, "
       "RSS against brute-force image enumeration.",
  note="The numeric constant (scipy.constants, gamma table) and float arithmetic are compared with 1e-9 relative tolerance, not modelled. "
       "get_pair_dipolar_couplings (2D correlation strengths) is compared with DipolarCoupling on random pair lists in every unit. Two defects found by this check were repaired (24b81c8 integer rotation axis, "
       "b88eb48 RSS image grid).",
  technique="Coq proof (Z lists, no axioms; Reals ring/field) of hand models reusing the C03 lattice theorems + differential correspondence + exact-distance oracle",
  design="§8 C11"),
 "C10": dict(
  text="Theorems about a hand model of the bookkeeping soprano owns around the NMR array properties, written over the sort REGENERATED from "
       "soprano/nmr/utils.py: the isotope precedence chain (list entry > dictionary entry > quadrupolar default when requested and tabulated > default) "
       "for every presence/absence combination; references/gradients as dictionary, expanded list, float or constant list address the same atoms, wrong-length "
       "lists are refused; the shift formula's laws; over the reals, for every traceless spectrum the array route's Vzz (last Haeberlen-sorted value) and the "
       "object route's (last NQR-sorted value) have the same magnitude and are equal whenever the magnitudes are distinct; the m values of the NQR lines. "
       "Tied to the code by correspondence (_get_isotope_list, reference resolution) and by an agreement oracle on random structures cycling through every "
       "element of nmrdata.json: every array property (isotropy, shift, anisotropies, asymmetry, span, skew, Vzz, Cq, Pq, NQR lines) against the attribute of "
       "that atom's tensor object and against the documented formula evaluated independently, isotope options in every combination, ref/grad as "
       "float/dict/list, force_recalc after overwriting the arrays.",
  note="The agreement of the two routes is decided numerically (1e-9) on sampled structures, not proved (eigh is an oracle); the CLI summary tables are not "
       "exercised. Known findings C10-F10b (four default isotopes without data in nmrdata.json). F-10 (MSTensor with a per-site reference list) found by this "
       "check and repaired.",
  technique="Coq proof (case analysis; Reals lra over the generated sorts) of a hand model + differential correspondence + agreement oracle (array route vs object route vs formula)",
  design="§8 C10"),
 "C13": dict(
  text="Axiom-free theorems over Z about a hand model of TriAvg.get_orient_points and ZCW._calc_engine, for EVERY N: the index triples of the two "
       "comprehensions are exactly the unit cells of the octahedron-face lattice (z_i(z) = z(2N+3-z)/2 proved to be the row offset), every vertex index is "
       "valid, distinct lattice points have distinct indices, and every point of the face off the grid lines lies in exactly one listed triangle (exact "
       "cover, any scaling); the ZCW recurrence returns at least the requested number of orientations and every orientation lies in the mode's region "
       "(exact rational cos(theta), phi). Over the reals: the binned triangle average (tent-to-bin integration, model of TriAvg.average) deposits exactly "
       "the weight of every triangle in contiguous bins covering its frequencies (telescoping identity; flat triangles as delta functions). Tied to the "
       "code by EXHAUSTIVE correspondence over the stated range N = 1..40 x 3 modes (triangle sets as signed lattice points == model under the mode's "
       "sign vectors), ZCW counts/angles for the requested sizes, per-bin tent values on random triangles, and numeric oracles: unit vectors, region, "
       "|r|^-3 weights, spherical-excess area sum == solid angle of the region, weights summing to one (ZCW, SHREWD).",
  note="PARTIAL: 'the weighted average of any traceless rank-2 function tends to zero' is PROVED exact for TriAvg sphere (props/C13/sphere_traceless.v: "
       "the octahedron point set is invariant under sign flips and coordinate swaps, any symmetric weight, every N; real-number axioms of the standard "
       "library); it is exact by symmetry for octant with diagonal tensors "
       "and only asymptotic for hemisphere/ZCW/SHREWD - no Coq proof there (quadrature error analysis); the run measures it (exactly 0 / below 1.2/N / "
       "shrinking) as supporting evidence. Over an octant the mean of n_x n_y is not zero in any implementation, so the clause is read for traceless "
       "DIAGONAL tensors there. SHREWD's optimiser is an oracle (only sum w = 1 claimed). Float normalisation and np.unique's merge are judged "
       "numerically. Defect F-13 (flat triangles lost) found by this check and repaired.",
  technique="Coq proof (Z: lia/nia, no axioms; Reals: lra/nra/field) of hand models + exhaustive correspondence over the stated TriAvg range + numeric oracles",
  design="§8 C13"),
 "C14": dict(
  text="(A) All 306 rule strings and the Hall map are REGENERATED from soprano/data/xrd_sel_rules.json / hall_2_no.json into Gallina on every run; the "
       "specification 'not systematically absent under the setting's symmetry operations' (h R = h and h.t non-integer for some operation; operations "
       "from a frozen copy of spglib's database compared with the live library each run) is evaluated by vm_compute over ALL hkl of [-6,6]^3 - the "
       "property's own finite quantifier - and lifted to a forall statement: 232 settings are proved to agree exactly; for the other 74 (known findings "
       "C14-hall<N>) it is proved that every disagreement is one of the recorded ones, so any further wrong reflection breaks a theorem; the Hall map "
       "agrees with the database. (B) axiom-free theorem about a hand model of powder_peaks for ANY positive-definite reciprocal metric, wavelength and "
       "rule and for every hkl of Z^3 (hkl box from the C03 completeness theorem): listed under spacing q iff rule, 0<1/d<2/lambda and 1/d^2 = q; one "
       "non-empty group per spacing in ascending order. Over the reals: hkl2d2_matgen is the inverse of the direct metric and abc2cart's rows have that "
       "metric (field). Tied to the code by: truth table of soprano's eval == generated rule on the whole box for all settings; powder_peaks and "
       "hkl2d2_matgen == models in exact rational arithmetic on 7 lattice families; numeric oracles for 1/d, 2theta, cart2abc(abc2cart).",
  note="arcsin, the rounding of 2theta to 1e-6 deg and cart2abc's arctan2 are not modelled (numeric oracle); lattices whose distinct spacings are "
       "closer than 4e-6 deg in 2theta are excluded from the exact comparison. 74 of the 306 tabulated rules disagree with their setting's operations "
       "(symmetry-equivalent zonal/serial conditions missing): recorded as known findings keyed on the exact disagreement set; rewriting a quarter of "
       "the data table is not a small repair.",
  technique="Coq proof: vm_compute over the property's finite quantifier lifted by forallb_forall, on rules regenerated from the JSON (py2v) + axiom-free Z proof of a hand model + Reals (field) + exact correspondence",
  design="§8 C14"),
 "C17": dict(
  text="Axiom-free theorems about a hand model of RemapIndices.extract and merge_sites (coq/model/Remap.v). Remap: species are arbitrary ids compared by "
       "equality; if every per-species assignment returned by the linear-sum-assignment oracle is a permutation of its group (contract checked on every "
       "call), then for ANY composition the species groups partition the atoms and the re-ordered index list is a permutation of all atom indices "
       "pairing every reference atom with a structure atom of the same species. Merge: a merge of any group of distinct valid indices, in any listing "
       "order, keep_all on or off, conserves the total multiplicity; so does any sequence of merges (= number of original sites from unit "
       "multiplicities); the result does not depend on the listing order; with keep_all off one site remains at the lowest index carrying "
       "sum/first/element-wise-sum of the group, exactly the other members are removed and the sites before it are untouched. Tied to the code by "
       "correspondence (recorded assignments -> model remap == RemapIndices output; merge sequences == model) and by oracles that state the property "
       "directly: recovery of the hidden permutation of shuffled, lattice-shifted, perturbed copies over element families with prefix symbols, refusal above "
       "tolerance / on different formulas, merged structure == documented strategies, listing-order independence, merge_tagged_sites.",
  note="scipy linear_sum_assignment and ase get_distances are oracles (contract = hypothesis of remap_permutation). Within-tolerance and recovery of "
       "the hidden permutation are judged numerically by the harness, not proved. Mean/concatenate strategies are outside the Coq model (python oracle). "
       "F-17a, F-17b and F-17c (labels truncated to 25 characters) were found by this check and repaired (fix: 23dee97, a3588cc, f5940bf).",
  technique="Coq proof (lists/Permutation, no axioms) of a hand model with the assignment solver as a contract-checked oracle + differential correspondence + property oracles",
  design="§8 C17"),
 "C19": dict(
  text="Theorems over the reals about a hand model of PhylogenCluster._recalc (coq/model/PhyloBody.v) and over Z about Clusters.v: for gene columns and "
       "genome vectors of ANY length, range normalisation puts every entry in [lo w, hi w] (w = weight/sqrt(len) >= 0), attains both ends for a non-constant "
       "column, sends a constant column to lo, and the one-sided modes are rigid shifts hitting the requested bound (range_normalised); the combined "
       "distance sqrt(sum (a_k-b_k)^2 + sum m_k^2) is symmetric, zero on the diagonal, non-negative and satisfies the triangle inequality (Cauchy-Schwarz "
       "and Minkowski proved by induction over lists) whenever each pair-gene component does (distance_metric); for any label list the index groups "
       "[where(labels == i)] are a partition that agrees with the labels (groups_agree); k-means labels are the nearest-centroid assignment for any centroids "
       "and observations (kmeans_assignment); the reference components of the graph 'closer than t' (the "
       "queue traversal shared with C04) are a partition, closed under near pairs, connected, and never left by a chain (single_linkage_components). Tied to "
       "the code by correspondence (normalised columns, squared distances, groups, k-means labels against the centroids scipy returned, scipy single-linkage "
       "fcluster vs the reference) and by oracles on the real "
       "API: metric axioms, ranges, partitions for 4 linkage methods and k-means, union-find components, permutation equivariance.",
  note="scipy.cluster (linkage, fcluster, kmeans, vq) is not modelled: its output is compared with the proved reference on sampled inputs (partial for the "
       "clause 'single-linkage clusters are exactly the components'). Permutation invariance is an oracle on the real API, not a theorem. Pair genes are "
       "assumed to be pseudo-metrics (hypothesis tri_ok); the built-in hbonds_site_compare gene is not exercised. Two defects were found and repaired "
       "(fix: 0414b44 import with SciPy >= 1.17, 3caf352 several pair-gene columns).",
  technique="Coq proof (Reals: Cauchy-Schwarz/Minkowski by list induction; Z lists for groups and components) of a hand model + differential correspondence (vm_compute) + oracles",
  design="§8 C19"),
 "C12": dict(
  text="Theorems over the reals about a hand model of the assembly of NMRCalculator.spectrum_1d (coq/model/SpecBody.v on top of the per-(triangle, bin) "
       "formula shared with C13) and over Z about the flag logic REGENERATED from nmr.py on every run (gen/NmrFlags.v): for any list of triangles (any "
       "nuclei, transitions, orientation scheme) with non-negative weights and any contiguous bins, every bin is non-negative, bins covering all vertex "
       "frequencies hold exactly the total weight (flat triangles included), and whenever the line is not identically zero the returned spectrum sums to "
       "nuclei x bins and is non-negative (intensity_conserved); a single crystal along a unit vector gives the line at n.sigma.n, which lies between the "
       "extreme principal values, and every bin outside that interval is empty (support); the returned axis is the requested window, ref - sigma when "
       "referenced, and MHz and ppm windows give the same internal axis up to the factor fixed by the Larmor frequency (axis); for spin below 1 every "
       "quadrupolar gate is off for ANY effects value, composite flags are the documented unions, the STATIC+MAS combination is refused (flags). Tied to "
       "the code by the py2v translator, by correspondence of the model (vm_compute on the exact rationals of the floats used) with spectrum_1d on CS "
       "powder patterns, and by oracles on the real class: sum, sign, support, centre of gravity, Gaussian lines at n.sigma.n, reference, units, Larmor "
       "bookkeeping, spin-1/2 masking, refusal, for 9 isotopes (spin 1/2..5/2) and 12 flag combinations.",
  note="Partial: 'centre of gravity at the isotropic value' is a numerical oracle (tolerance 0.2% of the span + half a bin), not a theorem; the Gaussian "
       "broadening paths and the second-order quadrupolar formulas are not modelled (only sum / sign / unit-independence are judged there). np.isclose(sum, 0) "
       "is modelled as sum = 0 and float bin edges as contiguous rationals. Known finding C12-F12c (octant mode with tensors off the Cartesian axes) is replayed each run; four defects found by this check were repaired: "
       "F-12b MHz + broadened powder (2723a61), F-12d descending axes for negative-gamma nuclei (584cfe9), F-12 empty unbroadened single-crystal / isotropic "
       "spectra (139cf14), and the flat-triangle loss shared with C13.",
  technique="Coq proof (Reals: telescoping tent sums, normalisation, Rayleigh bounds; Z bit-masks over generated definitions) + py2v translator + differential correspondence (vm_compute) + oracles",
  design="§8 C12"),
 "C18": dict(
  text="Axiom-free theorems about a transition-system model of Submitter._main_loop/_catch_signal/_terminate/_save/_load (coq/model/Submitter.v: one step "
       "per effect point, ghost event trace) over EVERY reachable state, i.e. any interleaving of loop steps, termination requests (at any point, any "
       "number) and restarts, any job stream, queue lifetimes and max_jobs: at most max_jobs jobs outstanding; every job submitted at most once, finalised at "
       "most once and only after submission, failed setups never submitted; conservation laws (each job of the stream is in exactly one place; a folder "
       "exists iff a live job owns it) give: at quiescence every job that did not fail setup was submitted once and finalised once and no folder remains, "
       "also across stop+resume with continuation (no loss, no duplication); after a stop without continuation the tables are empty, every submitted job "
       "finalised, no folder left; with continuation everything outstanding is in the pickle. Tied to the code by exhaustive-in-small-scope "
       "correspondence: the REAL Submitter is run in-process with the handler delivered at every executed line of submit.py and of every callback "
       "(sys.settrace), optional second interruption, restart; its event log (reads of _running, next_job, mkdtemp, setup, rmtree, submit, check, finish, "
       "kill, save) must equal the model's trace; independent monitors state the property on the log.",
  note="Progress is proved (props/C18/progress.v): from ANY state, with max_jobs >= 1 and no further signal, finitely many steps reach the exit or the "
       "quiescent top of the loop (potential: polls owed + jobs in the table + a weight per unsubmitted job); with max_jobs = 0 a livelock is proved. Signal "
       "delivery is modelled at line granularity; remote hosts, max_time and _spawn.py's crash handler are not modelled. The queue returning fresh ids "
       "and mkdtemp fresh folders are environment assumptions. Two defects found by this check were repaired (fix: a043435 pickle mode, f140a01 "
       "termination inside the handler).",
  technique="Coq proof (invariants by induction over all interleavings of step/stop/restart; termination by a decreasing potential; no axioms) of a hand model + exhaustive small-scope trace correspondence",
  design="§8 C18"),
 "C07": dict(
  text="Axiom-free theorems about a hand model of AtomSelection (coq/model/Sel.v): for all operands given as arbitrary index lists, sum / difference / "
       "product have exactly the union / difference / intersection of the atom indices, duplicate-free and ascending; different compositions are "
       "refused; every array of a result holds for each selected atom the value it had in the operand it came from (Forall2 over the result); slicing "
       "applies one position list to indices and arrays; element and array-comparison selectors are exact (iff); the periodic sphere selector is the "
       "C03 all-images theorem on position-centre and the periodic box selector is proved sound and complete for atoms stored in any image (box_exact); "
       "accepted selection strings give duplicate-free selections, a bare element / 'El.i' select what they say. Tied to the code by correspondence "
       "(operators, chains, slicing, selectors, selection strings generated from the documented grammar incl. 'Si.1-3,5', spheres and boxes with atoms, "
       "cell_indices and order) and by exact brute-force oracles (absolute and scaled coordinates).",
  note="The regex tokenisation of selection strings is not modelled (strings are generated from item ASTs). Python set iteration order for small "
       "non-negative ints is modelled as ascending. scaled=True selectors are judged by an exact oracle only (power-of-two diagonal cells). from_bonds "
       "belongs to C04. Five defects were found by this check and repaired (fix: d99a714, edacb80, 6c4ad3d, 21c00f6, deff7bf).",
  technique="Coq proof (lists over Z, no axioms) of a hand model + differential correspondence (vm_compute) + exact oracles",
  design="§8 C07"),
 "C06": dict(
  text="Axiom-free theorems about a hand model of AtomsCollection (coq/model/Coll.v) in which every array cell carries the id of the structure "
       "it was created for: the alignment invariant (row k of every array belongs to structure k or is padding; counts agree) is preserved by "
       "every operation and hence by EVERY finite history (induction over fold_left); selection order, concatenation with padding, "
       "filter/classify order, the stable joint sort (one permutation, key column sorted) and chunk concatenation / chunk sizes are proved. "
       "Tied to the code by correspondence on operation histories: every prefix of random histories (length 1-8, valid and malformed arguments, "
       "0-12 structures, scalar/vector/string arrays, arrays present on one side only, sort-key ties) must give the same outcome class, "
       "structure order and owner of every array row as the model evaluated by vm_compute; purity is checked by deep snapshots of operands.",
  note="Purity is definitional in the model and only tested on the code. numpy fancy indexing, pickle and ase.Atoms copying are exercised, not "
       "modelled. Sorting by an array containing padding (NaN) and row shape (1,) arrays are excluded from the generator. Known findings "
       "C06-F06c2 (concatenation with an empty collection carrying vector arrays) is replayed each run; F-06a/F-06b/F-06c1 were found by this check and repaired.",
  technique="Coq proof (invariant by induction over operation histories, no axioms) of a hand model + differential correspondence on histories",
  design="§8 C06"),
 "C03": dict(
  text="Axiom-free theorems over Z about a hand model of minimum_supcell/supcell_gridgen/minimum_periodic/all_periodic (coq/model/Lattice.v): "
       "the supercell box contains every lattice point in the sphere for any non-singular lattice, pbc mask and rational r^2 (Cauchy-Schwarz on the "
       "reciprocal rows) and for any positive-definite metric (explicit sum-of-squares identities), the bound is exactly ceil(r sqrt(Ginv_ii)); "
       "minimum_periodic returns, for EVERY input vector (inside, outside, far outside), an image of globally minimal length with the cell that "
       "produces it; with exclude_self the shortest non-zero image; all_periodic returns exactly the images within the radius with source index "
       "and cell (iff). Tied to the code by exact correspondence on integer inputs (6 lattice streams x 8 masks x vector mixes): images, cells, order "
       "and bounds equal the model's vm_compute values; an independent exact brute-force oracle judges the implementation.",
  note="Integer (scaled) inputs: squared lengths compared exactly. Float ceil inside minimum_supcell may be one larger exactly at integer "
       "boundaries and np.round at exact half fractional coordinates is rounding-dependent: those cases are compared by length / as sets only. "
       "LAPACK eigh inside minimum_supcell is exercised, not modelled. Three defects (F-03a/b/c) were found by this check and repaired (fix: f18a72a).",
  technique="Coq proof (Z, lia/nia/ring, no axioms) of a hand model + exact differential correspondence (vm_compute) + brute-force oracle",
  design="§8 C03"),
 "C01": dict(
  text="Theorems over the reals (Coq Reals) about _evals_sort REGENERATED from soprano/nmr/utils.py on every run: for all real triples and the four "
       "conventions the output is the input rearranged by the reported permutation and satisfies the defining chain (all tie patterns); the ordered "
       "spectrum is canonical when keys are tie-free (re-order = construct; (evals,evecs) = matrix construction under the eigh contract); for every "
       "orthonormal eigen-frame the re-ordered frame with the cross-product third axis is orthonormal, right-handed and reconstructs the same "
       "symmetric matrix (nsatz); symm(M+K)=symm(M). The frame model is hand-written and tied by exact correspondence on signed-permutation matrices "
       "over the three classes x 4 orders x {construct, re-order, pair}; a numeric property oracle runs on 9 random streams and per-atom lists.",
  note="eigh is an oracle with a stated contract (hypothesis of from_matrix_spec / from_pair_equiv, sampled each run). Float ties between keys "
       "that are distinct reals are not modelled. Known finding C01-F01 (ties) is proved as findings/C01_reorder_ties_refuted.v and replayed each run.",
  technique="Coq proof (Reals, lra/nsatz) over a model regenerated from source (py2v) + exact differential correspondence",
  design="§8 C01"),
 "C02": dict(
  text="Theorems over the reals about the GENERATED _anisotropy/_asymmetry/_span/_skew composed with the generated sort: defining identities, "
       "0<=eta<=1 and -1<=skew<=1 with the zero guards, span>=0, invariance of every descriptor under any rearrangement of the spectrum "
       "(anisotropies under tie-free Haeberlen keys), shift law (+cI), scale law (k<>0, negative included: span by |k|, skew by sign k), trace laws, "
       "and decoders showing that IUPAC/Mehring, Maryland/Herzfeld-Berger and Haeberlen tuples determine the same principal values. Tied to the "
       "code by regeneration plus correspondence of the public attributes of the three classes on exact spectra, and a metamorphic oracle "
       "(4 orders, antisymmetric part, rotations, shifts, scales) on the real classes.",
  note="'span scales by k' is read as |k| (a span is non-negative). Rotation invariance of the spectrum itself is linear algebra assumed, "
       "sampled numerically. Known finding C02-F02 (eta = 1 tie: sign of the anisotropy) proved as findings/C02_eta1_sign_refuted.v.",
  technique="Coq proof (Reals, lra/nra/field) over a model regenerated from source (py2v) + differential correspondence + metamorphic oracle",
  design="§8 C02"),
 "C20": dict(
  text="Theorems about the decision skeleton of save_tree/load_tree REGENERATED from collection.py on every run (py2v tree_skel): "
       "an existing target is rmtree'd only where the documented table permits, a declined/forbidden overwrite does nothing, "
       "prompt and refusal occur exactly where documented, load_tree's per-level plan equals the documented one; for all safety "
       "levels, check results and answers (finite domain, proved by case analysis + lia). The hand model of the target states "
       "is tied to the real file-system behaviour by an exhaustive correspondence (8 target states x 4 levels x 4 answers for save; "
       "x tolerant x unreadable member for load) on a real temp directory, plus round trips.",
  note="The write phase after the first os.mkdir(path) is one abstract event (scanned syntactically for destructive calls on path). "
       "File system, pickle and glob are exercised, not modelled beyond 8 target states. F-20 (declined overwrite), F-20b (tolerant loading with saved arrays) and F-20c (empty collection) were found by this check and repaired.",
  technique="Coq proof over a model regenerated from source (py2v) + exhaustive differential correspondence",
  design="§8 C20"),
}

NOT_YET = "check not built yet (work in progress; DESIGN.md section 8 describes the planned model and theorems)"


def main():
    props = [json.loads(l) for l in open(os.path.join(VERIF, "properties.jsonl"))]
    checks = []
    na = []
    for p in props:
        i = p["id"]
        if i in CLAIMED:
            c = CLAIMED[i]
            checks.append(dict(
                property_id=i,
                quick_cmd="./check %s --tier quick" % i,
                thorough_cmd="./check %s --tier thorough" % i,
                evidence_file="/verif/evidence/%s.json" % i,
                replay_cmd_template="./check %s --replay {path}" % i,
                engine="coq-soprano",
                level_claimed=dict(category="proof", text=c["text"], design_ref=c["design"]),
                level_note=COMMON_NOTE + c["note"],
                technique=c["technique"]))
        else:
            na.append(dict(property_id=i, reason=NOT_YET))
    m = dict(
        version=1,
        setup_cmd="cd /verif && ./check setup",
        hooks=dict(guard="CCP_NC_SOPRANO_VERIF",
                   enable="no hooks are needed: the harness drives the public API in-process (sys.settrace, monkey-patching from the harness side); nothing in /repo reads the guard",
                   baseline_off_cmd="cd /repo && /venv/bin/python -m pytest -ra -q -p no:cacheprovider --timeout=900 --continue-on-collection-errors",
                   source_commits=[], add_only=True),
        engines=[dict(name="coq-soprano", path="/verif/coq", serves_properties=sorted(CLAIMED),
                      kind_free_text="Coq 8.16 development (models, proofs, one theorem per file under props/) + Python harness (tools/) that regenerates models from /repo, builds the theorems, evaluates the model with vm_compute and diffs it against the implementation")],
        checks=checks,
        notes="See DESIGN.md. ./check Cxx regenerates the generated Coq models from /repo's working tree, rebuilds the property's theorems (make, full .vo), runs the correspondence and the property oracle on the real code, replays known findings (known_findings.json) and writes evidence/Cxx.json.",
        not_applicable=na)
    with open(os.path.join(VERIF, "MANIFEST.json"), "w") as f:
        json.dump(m, f, indent=1)
    print("MANIFEST.json: %d checks, %d not_applicable" % (len(checks), len(na)))


if __name__ == "__main__":
    main()
