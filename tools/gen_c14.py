"""ONE-OFF generator (its outputs are committed; it is never run by a check): writes coq/props/C14/rules_box_<k>.v for the
settings whose rule agrees with the operations on the box, coq/props/C14/rules_known_<k>.v pinning the exact recorded
disagreement sets of the others, and the C14 entries of known_findings.json.  Input: /tmp/c14_bad.json computed from the pinned tree."""
import json, sys
sys.path.insert(0, '/verif/tools/py2v')
import xrd_rules as X
bad = json.load(open('/tmp/c14_bad.json'))
rules, hall = X.load_tables('/repo')
halls = sorted(int(x) for x in hall)
good = [H for H in halls if str(H) not in bad]
HDR = ("From Coq Require Import ZArith List Bool Lia.\nImport ListNotations.\n"
       "Require Import Sop.gen.XrdRules Sop.gen.SgOps Sop.model.XrdSpec Sop.proofs.XrdProofs.\nLocal Open Scope Z_scope.\n")
NS = 8
for k in range(NS):
    hs = good[k::NS]
    name = "rules_box_%d" % k
    txt = HDR + """(* C14: for each of these space-group settings the selection rule GENERATED from soprano/data/xrd_sel_rules.json allows exactly the reflections
   of [-6,6]^3 that are not systematically absent under the setting's symmetry operations (spglib database, frozen copy). *)
Definition halls : list Z := %s.
Definition ok (H : Z) : bool :=
  match rule_of_hall H with Some r => match mismatches 6 r (ops_of_hall H) with [] => true | _ => false end | None => false end.
Lemma all_ok : forallb ok halls = true.
Proof. vm_compute. reflexivity. Qed.
Theorem %s : forall H, In H halls -> exists r, rule_of_hall H = Some r /\\
  forall h k l, -6 <= h <= 6 -> -6 <= k <= 6 -> -6 <= l <= 6 -> r h k l = allowed (ops_of_hall H) h k l.
Proof.
  intros H I. pose proof (proj1 (forallb_forall ok halls) all_ok H I) as E. unfold ok in E.
  destruct (rule_of_hall H) as [r|]; [|discriminate]. exists r. split; [reflexivity|].
  destruct (mismatches 6 r (ops_of_hall H)) eqn:M; [|discriminate]. exact (mismatches_nil_spec 6 r (ops_of_hall H) M).
Qed.
Redirect "props/C14/%s.assum" Print Assumptions %s.
""" % ("[" + "; ".join(map(str, hs)) + "]", name, name, name)
    open('/verif/coq/props/C14/%s.v' % name, 'w').write(txt)
bh = sorted(int(x) for x in bad)
NB = 4
for k in range(NB):
    hs = bh[k::NB]
    name = "rules_known_%d" % k
    rec = "[" + ";\n  ".join("(%d, [%s])" % (H, "; ".join(map(str, bad[str(H)]))) for H in hs) + "]"
    txt = HDR + """(* C14: settings whose tabulated rule is KNOWN to disagree with the symmetry operations (known findings C14-hall<N>): every disagreement
   inside [-6,6]^3 is one of the recorded ones (encoded ((h+6)*13+(k+6))*13+(l+6)) - a further wrong reflection breaks this theorem. *)
Definition recorded : list (Z * list Z) :=
  %s.
Definition ok (x : Z * list Z) : bool :=
  match rule_of_hall (fst x) with
  | Some r => forallb (fun c => existsb (Z.eqb c) (snd x)) (mismatches 6 r (ops_of_hall (fst x)))
  | None => false
  end.
Lemma all_ok : forallb ok recorded = true.
Proof. vm_compute. reflexivity. Qed.
Theorem %s : forall H rec, In (H, rec) recorded -> exists r, rule_of_hall H = Some r /\\
  forall h k l, -6 <= h <= 6 -> -6 <= k <= 6 -> -6 <= l <= 6 -> r h k l <> allowed (ops_of_hall H) h k l -> In (code 6 h k l) rec.
Proof.
  intros H rec I. pose proof (proj1 (forallb_forall ok recorded) all_ok (H, rec) I) as E. unfold ok in E. cbn [fst snd] in E.
  destruct (rule_of_hall H) as [r|]; [|discriminate]. exists r. split; [reflexivity|]. exact (mismatches_sub_spec 6 r (ops_of_hall H) rec E).
Qed.
Redirect "props/C14/%s.assum" Print Assumptions %s.
""" % (rec, name, name, name)
    open('/verif/coq/props/C14/%s.v' % name, 'w').write(txt)
# one refutation with a witness
txt = HDR + """(* C14 known finding (one witness of the 74 settings listed in known_findings.json): Hall 367 (P 4 21 2) - the table has the
   h00 condition but not its symmetry-equivalent 0k0 one. *)
Theorem C14_rule_table_refuted : exists H r h k l, rule_of_hall H = Some r /\\ r h k l <> allowed (ops_of_hall H) h k l.
Proof. exists 367, rule_hall_367, 0, 1, 0. split; [reflexivity|]. vm_compute. discriminate. Qed.
Redirect "findings/C14_rule_table_refuted.assum" Print Assumptions C14_rule_table_refuted.
"""
open('/verif/coq/findings/C14_rule_table_refuted.v', 'w').write(txt)
# known findings
import hashlib, spglib
kf = json.load(open('/verif/known_findings.json'))
kf['findings'] = [f for f in kf['findings'] if not f['id'].startswith('C14-hall')]
for H in bh:
    n, o = hall[str(H)]['n'], hall[str(H)]['o']
    codes = bad[str(H)]
    ex = [((c // 169) - 6, (c // 13) % 13 - 6, c % 13 - 6) for c in codes[:3]]
    kf['findings'].append(dict(property="C14", id="C14-hall%d" % H, status="known",
        what="selection rule of Hall %d (international %s option %s, %s) disagrees with the setting's symmetry operations on %d reflections of [-6,6]^3, e.g. %s: symmetry-equivalent zonal/serial conditions are missing from the table"
             % (H, n, o, spglib.get_spacegroup_type(H).international_short, len(codes), ex),
        signature=dict(call="get_sel_rule_from_hall(%d)" % H, hall=H, n_mismatch=len(codes), sha1=hashlib.sha1(json.dumps(sorted(codes)).encode()).hexdigest(),
                       **{"class": "exactly this set of hkl in [-6,6]^3; any other disagreement in this setting is a new violation"}),
        witness=dict(kind="rule", case=dict(hall=H, hkl=list(ex[0])))))
json.dump(kf, open('/verif/known_findings.json', 'w'), indent=1)
print(len(good), len(bh))
