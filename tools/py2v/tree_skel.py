"""py2v, C20 part: translate the overwrite-decision skeleton of
AtomsCollection.save_tree / load_tree (soprano/collection/collection.py) into Gallina.

Purely syntactic and fail-closed: every statement of the translated region
must be one of the whitelisted forms, otherwise Unsupported is raised (the
obligations depending on gen/TreeGen.v then count as broken).

save_tree   ->  save_decide (check safety : Z) (answer : bool) : list event
   events, in program order:  EAsk | ERaise | EPrint | ERmtree | EMkdir | EWrite
   region: from `check = AtomsCollection.check_tree(path)` to the first
   top-level `os.mkdir(path)`; the remainder (writing the tree) is EWrite and is
   only scanned for calls that could delete `path`.
load_tree   ->  load_decide (check safety : Z) : load_plan
   load_plan = LRaise | LLoad (listed : bool) (arrays : bool) (meta_info : bool)
   load_final (nfail ntot : Z) (tolerant : bool) : load_end  (the percentage block)
"""
import ast
import sys


class Unsupported(Exception):
    pass


def fail(node, why):
    raise Unsupported("%s at line %s: %s :: %s" % (type(node).__name__, getattr(node, "lineno", "?"), why,
                                                    ast.unparse(node)[:100]))


def find_method(tree, cls, name):
    for n in tree.body:
        if isinstance(n, ast.ClassDef) and n.name == cls:
            for m in n.body:
                if isinstance(m, ast.FunctionDef) and m.name == name:
                    return m
    raise Unsupported("method %s.%s not found" % (cls, name))


CMP = {ast.Gt: ">?", ast.GtE: ">=?", ast.Lt: "<?", ast.LtE: "<=?", ast.Eq: "=?"}


def zc(v):
    return str(v) if v >= 0 else "(%d)" % v


class Cond:
    """boolean conditions over the integer variables and perm"""

    def __init__(self, intvars, env):
        self.intvars = intvars
        self.env = env

    def atom(self, n):
        if isinstance(n, ast.Name) and n.id in self.intvars:
            return self.intvars[n.id]
        if isinstance(n, ast.Constant) and isinstance(n.value, int) and not isinstance(n.value, bool):
            return zc(n.value)
        if isinstance(n, ast.UnaryOp) and isinstance(n.op, ast.USub) and isinstance(n.operand, ast.Constant) \
                and isinstance(n.operand.value, int):
            return zc(-n.operand.value)
        fail(n, "not an integer atom")

    def tr(self, n):
        if isinstance(n, ast.Compare) and len(n.ops) == 1 and type(n.ops[0]) in CMP:
            return "(%s %s %s)" % (self.atom(n.left), CMP[type(n.ops[0])], self.atom(n.comparators[0]))
        if isinstance(n, ast.Compare) and len(n.ops) == 1 and isinstance(n.ops[0], ast.NotEq):
            return "(negb (%s =? %s))" % (self.atom(n.left), self.atom(n.comparators[0]))
        if isinstance(n, ast.UnaryOp) and isinstance(n.op, ast.Not):
            return "(negb %s)" % self.tr(n.operand)
        if isinstance(n, ast.BoolOp):
            op = " && " if isinstance(n.op, ast.And) else " || "
            return "(" + op.join(self.tr(v) for v in n.values) + ")"
        if isinstance(n, ast.Name) and n.id in self.env:
            return self.env[n.id]
        if isinstance(n, ast.Constant) and isinstance(n.value, bool):
            return "true" if n.value else "false"
        fail(n, "condition")


def is_call(st, text):
    return isinstance(st, ast.Expr) and isinstance(st.value, ast.Call) and ast.unparse(st.value.func) == text


def save_skeleton(fn):
    body = list(fn.body)
    # skip docstring
    if body and isinstance(body[0], ast.Expr) and isinstance(body[0].value, ast.Constant):
        body = body[1:]
    if not (isinstance(body[0], ast.Assign) and ast.unparse(body[0]) == "check = AtomsCollection.check_tree(path)"):
        fail(body[0], "expected check = AtomsCollection.check_tree(path)")
    body = body[1:]
    # the prompt helper: def ow_ask(path): return utils.safe_input(...).lower() == 'y'
    if not (isinstance(body[0], ast.FunctionDef) and body[0].name == "ow_ask"):
        fail(body[0], "expected def ow_ask")
    ow = body[0]
    if not (len(ow.body) == 1 and isinstance(ow.body[0], ast.Return)):
        fail(ow, "ow_ask body")
    r = ow.body[0].value
    if not (isinstance(r, ast.Compare) and len(r.ops) == 1 and isinstance(r.ops[0], ast.Eq)
            and isinstance(r.comparators[0], ast.Constant) and r.comparators[0].value == "y"
            and ast.unparse(r.left).startswith("utils.safe_input(") and ast.unparse(r.left).endswith(".lower()")):
        fail(ow, "ow_ask must be utils.safe_input(...).lower() == 'y'")
    body = body[1:]
    # region ends at first top-level os.mkdir(path)
    end = None
    for i, st in enumerate(body):
        if is_call(st, "os.mkdir") and ast.unparse(st.value.args[0]) == "path":
            end = i
            break
    if end is None:
        fail(fn, "no top-level os.mkdir(path)")
    region, rest = body[:end + 1], body[end + 1:]
    # the remainder must not delete or re-create `path` itself
    for st in rest:
        for c in ast.walk(st):
            if isinstance(c, ast.Call):
                f = ast.unparse(c.func)
                if f in ("shutil.rmtree", "os.rmdir", "os.remove", "os.unlink", "shutil.move", "os.rename", "os.removedirs"):
                    if not (c.args and ast.unparse(c.args[0]) == "fold"):
                        fail(c, "destructive call outside the decision region")
    intvars = {"check": "check", "safety_check": "safety"}

    def block(stmts, env, k):
        """Gallina term of type list event for stmts followed by continuation k(env)."""
        if not stmts:
            return k(env)
        st, more = stmts[0], stmts[1:]
        cont = lambda e: block(more, e, k)
        if isinstance(st, ast.Raise):
            return "[ERaise]"
        if isinstance(st, ast.Return):
            if st.value is not None:
                fail(st, "return with a value")
            return "[]"
        if isinstance(st, ast.Pass):
            return cont(env)
        if is_call(st, "print"):
            return "(EPrint :: %s)" % cont(env)
        if is_call(st, "shutil.rmtree"):
            if ast.unparse(st.value.args[0]) != "path":
                fail(st, "rmtree of something else")
            return "(ERmtree :: %s)" % cont(env)
        if is_call(st, "os.mkdir"):
            if ast.unparse(st.value.args[0]) != "path":
                fail(st, "mkdir of something else")
            return "(EMkdir :: %s)" % cont(env)
        if isinstance(st, ast.Assign) and len(st.targets) == 1 and isinstance(st.targets[0], ast.Name) \
                and st.targets[0].id == "perm":
            v = st.value
            e = dict(env)
            if isinstance(v, ast.Constant) and isinstance(v.value, bool):
                e["perm"] = "true" if v.value else "false"
                return cont(e)
            if isinstance(v, ast.Call) and ast.unparse(v) == "ow_ask(path)":
                e["perm"] = "answer"
                return "(EAsk :: %s)" % cont(e)
            fail(st, "perm assignment")
        if isinstance(st, ast.If):
            c = Cond(intvars, env).tr(st.test)
            # variables assigned in either branch flow on: duplicate the continuation (finite tree)
            a = block(st.body, env, lambda e: cont(e))
            b = block(st.orelse, env, lambda e: cont(e))
            return "(if %s\n then %s\n else %s)" % (c, a, b)
        fail(st, "statement not in the whitelisted skeleton grammar")

    def after(env):
        return "[EWrite]"

    g = block(region, {}, after)
    return ("Definition save_decide (check safety : Z) (answer : bool) : list event :=\n  %s.\n" % g)


def load_skeleton(fn):
    body = list(fn.body)
    if body and isinstance(body[0], ast.Expr) and isinstance(body[0].value, ast.Constant):
        body = body[1:]
    if ast.unparse(body[0]) != "check = AtomsCollection.check_tree(path)":
        fail(body[0], "expected check = AtomsCollection.check_tree(path)")
    body = body[1:]
    # region 1: up to the `# Format type?` block, i.e. the statement `is_ext = ...`
    end = None
    for i, st in enumerate(body):
        if isinstance(st, ast.Assign) and ast.unparse(st.targets[0]) == "is_ext":
            end = i
            break
    if end is None:
        fail(fn, "no is_ext assignment")
    region = body[:end]
    rest = body[end:]
    intvars = {"check": "check", "safety_check": "safety"}
    GLOB = ("[os.path.relpath(d, path) for d in glob.glob(os.path.join(path, '*')) if os.path.isdir(d)]")

    def block(stmts, env, k):
        if not stmts:
            return k(env)
        st, more = stmts[0], stmts[1:]
        cont = lambda e: block(more, e, k)
        if isinstance(st, ast.Raise):
            return "None"
        if isinstance(st, ast.With):
            # with open(.collection) as f: coll = pickle.load(f)
            if ast.unparse(st.items[0].context_expr) == "open(os.path.join(path, '.collection'), 'rb')" and \
                    len(st.body) == 1 and ast.unparse(st.body[0]) == "coll = pickle.load(f)":
                e = dict(env)
                e["coll"] = "true"
                return cont(e)
            fail(st, "with")
        if isinstance(st, ast.Assign) and len(st.targets) == 1 and isinstance(st.targets[0], ast.Name) \
                and st.targets[0].id == "dirlist":
            src = ast.unparse(st.value)
            e = dict(env)
            if src == "[]":
                e["dirlist"] = "DNone"
            elif src == "coll['dirlist']":
                if env.get("coll") != "true":
                    fail(st, "coll used before being loaded")
                e["dirlist"] = "DListed"
            elif src == GLOB:
                e["dirlist"] = "DAll"
            else:
                fail(st, "dirlist source")
            return cont(e)
        if isinstance(st, ast.If):
            c = Cond(intvars, env).tr(st.test)
            a = block(st.body, env, lambda e: cont(e))
            b = block(st.orelse, env, lambda e: cont(e))
            return "(if %s\n then %s\n else %s)" % (c, a, b)
        fail(st, "statement not in the whitelisted skeleton grammar")

    g1 = block(region, {"dirlist": "DNone"}, lambda e: "Some %s" % e["dirlist"])
    out = ["Definition load_dirs (check safety : Z) : option dirsrc :=\n  %s.\n" % g1]
    # region 2: info source and array restoration
    info_if = None
    arr_if = None
    pct = None
    for st in rest:
        if isinstance(st, ast.If):
            t = ast.unparse(st.test)
            if len(st.body) == 1 and ast.unparse(st.body[0]) == "info = coll['info']":
                info_if = st
            elif t == "percentage_failed > 0":
                pct = st
            elif any(ast.unparse(x).startswith("loaded_coll.set_array(") for b in st.body for x in ast.walk(b)
                     if isinstance(x, ast.Call)):
                arr_if = st
    if info_if is None or arr_if is None or pct is None:
        fail(fn, "info / arrays / percentage blocks not found")
    if ast.unparse(info_if.orelse[0]) != "info = {}":
        fail(info_if, "info else")
    c = Cond(intvars, {})
    out.append("Definition load_meta_info (check safety : Z) : bool := %s.\n" % c.tr(info_if.test))
    if arr_if.orelse:
        fail(arr_if, "array restoration must have no else")
    if not (len(arr_if.body) == 2 and ast.unparse(arr_if.body[0]) == "arrays = coll['arrays']"
            and isinstance(arr_if.body[1], ast.For)
            and ast.unparse(arr_if.body[1].body[0]) == "loaded_coll.set_array(k, np.array(a)[loaded])"):
        fail(arr_if, "array restoration body")
    out.append("Definition load_arrays (check safety : Z) : bool := %s.\n" % c.tr(arr_if.test))
    # percentage block: if pf > 0: (if pf == 100: raise / elif not tolerant: raise / else: warn) else: print
    pf = [s for s in rest if isinstance(s, ast.Assign) and ast.unparse(s.targets[0]) == "percentage_failed"]
    # (an empty collection has no member that could fail: the guard makes the percentage 0 there, which is what load_final says for ntot = 0)
    if len(pf) != 1 or ast.unparse(pf[0].value) != "(1 - len(structures) / len(dirlist)) * 100 if dirlist else 0.0":
        fail(fn, "percentage_failed formula")
    inner = pct.body
    if not (len(inner) == 1 and isinstance(inner[0], ast.If) and ast.unparse(inner[0].test) == "percentage_failed == 100"
            and isinstance(inner[0].body[0], ast.Raise)):
        fail(pct, "all-failed branch")
    el = inner[0].orelse
    if not (len(el) == 1 and isinstance(el[0], ast.If) and ast.unparse(el[0].test) == "not tolerant"
            and isinstance(el[0].body[0], ast.Raise)):
        fail(pct, "non-tolerant branch")
    tol = el[0].orelse
    if any(isinstance(x, (ast.Raise, ast.Return)) for s in tol for x in ast.walk(s)):
        fail(pct, "tolerant branch must not raise/return")
    # percentage_failed > 0  <->  nload < ntot ; == 100 <-> nload = 0   (ntot > 0)
    out.append("Definition load_final (nload ntot : Z) (tolerant : bool) : load_end :=\n"
               "  if nload <? ntot then (if nload =? 0 then EndRaise else if negb tolerant then EndRaise else EndPartial)\n"
               "  else EndFull.\n")
    return "\n".join(out)


HEADER = """(* GENERATED by tools/py2v/tree_skel.py from soprano/collection/collection.py -- do not edit *)
From Coq Require Import ZArith List Bool.
Import ListNotations.
Local Open Scope Z_scope.
Inductive event := EAsk | ERaise | EPrint | ERmtree | EMkdir | EWrite.
Inductive dirsrc := DNone | DListed | DAll.
Inductive load_end := EndRaise | EndPartial | EndFull.
"""


def generate(path):
    tree = ast.parse(open(path).read())
    s = save_skeleton(find_method(tree, "AtomsCollection", "save_tree"))
    l = load_skeleton(find_method(tree, "AtomsCollection", "load_tree"))
    return HEADER + "\n" + s + "\n" + l


if __name__ == "__main__":
    print(generate(sys.argv[1]))
