#!/usr/bin/env python3
"""py2v for soprano/nmr/utils.py (route A of DESIGN.md section 4).
Symbolic, fail-closed translation of a few functions of soprano/nmr/utils.py to Gallina text
over an abstract carrier (names num, leb, ltb, eqb, absn, PIn, modn, of_dec provided by a header)."""
import ast, sys, itertools

class Unsupported(Exception): pass
def fail(node, why=""):
    raise Unsupported(f"{type(node).__name__} at line {getattr(node,'lineno','?')}: {why} :: {ast.unparse(node)[:80]}")

class V:  # symbolic value
    def __init__(s, ty, gx): s.ty=ty; s.gx=gx
    def __repr__(s): return f"<{s.ty}:{s.gx}>"
def num(gx): return V('num',gx)
def const(x):
    # python numeric literal -> carrier literal (exact decimal -> rational)
    from fractions import Fraction
    f=Fraction(str(x)) if not isinstance(x,int) else Fraction(x)
    if f.denominator==1: return num(f"(of_Z ({f.numerator}))")
    return num(f"(of_Z ({f.numerator}) / of_Z ({f.denominator}))")

class Tr:
    def __init__(self, tree, static):
        self.funcs={n.name:n for n in tree.body if isinstance(n,ast.FunctionDef)}
        self.static=static      # fname -> {param: [values]}  (params specialised statically)
        self.out=[]; self.done={}
        self.fresh=itertools.count()
    # ---------- expressions
    def ex(self, n, env):
        if isinstance(n, ast.Constant):
            if isinstance(n.value,(bool,)): return V('sbool',n.value)
            if isinstance(n.value,(int,float)): return const(n.value)
            if isinstance(n.value,str): return V('str',n.value)
            fail(n)
        if isinstance(n, ast.Name):
            if n.id in env: return env[n.id]
            fail(n,"unbound")
        if isinstance(n, ast.Attribute):
            s=ast.unparse(n)
            if s=='np.pi': return num('PIn')
            if s=='np.inf': return V('inf','Inf')
            fail(n)
        if isinstance(n, ast.UnaryOp):
            v=self.ex(n.operand,env)
            if isinstance(n.op,ast.USub):
                if v.ty=='num': return num(f"(- {v.gx})")
            if isinstance(n.op,ast.Not):
                if v.ty=='sbool': return V('sbool',not v.gx)
                if v.ty=='bool': return V('bool',f"(negb {v.gx})")
            fail(n)
        if isinstance(n, ast.BinOp):
            a=self.ex(n.left,env); b=self.ex(n.right,env)
            op={ast.Add:'+',ast.Sub:'-',ast.Mult:'*',ast.Div:'/'}.get(type(n.op))
            if isinstance(n.op,ast.Mod) and a.ty=='num' and b.ty=='num': return num(f"(modn {a.gx} {b.gx})")
            if isinstance(n.op,ast.Pow) and a.ty=='num' and isinstance(n.right,ast.Constant) and n.right.value in (2,2.0): return num(f"({a.gx} * {a.gx})")
            if op and a.ty=='num' and b.ty=='num': return num(f"({a.gx} {op} {b.gx})")
            if op=='/' and a.ty=='num' and b.ty=='optnum': return num(f"(div_opt {a.gx} {b.gx})")
            if op=='-' and a.ty=='vec3' and b.ty=='colnum': return V('vec3',f"(sub3s {a.gx} {b.gx})")
            fail(n,f"binop {a.ty} {b.ty}")
        if isinstance(n, ast.Compare) and len(n.ops)==1:
            a=self.ex(n.left,env); o=n.ops[0]
            if a.ty=='str' and isinstance(o,ast.In) and isinstance(n.comparators[0],ast.Tuple):
                return V('sbool',a.gx in [e.value for e in n.comparators[0].elts])
            b=self.ex(n.comparators[0],env)
            if a.ty=='str' and b.ty=='str' and isinstance(o,ast.Eq): return V('sbool',a.gx==b.gx)
            if a.ty=='num' and b.ty=='num':
                m={ast.Gt:f"(ltb {b.gx} {a.gx})",ast.GtE:f"(leb {b.gx} {a.gx})",ast.Lt:f"(ltb {a.gx} {b.gx})",ast.LtE:f"(leb {a.gx} {b.gx})",ast.Eq:f"(eqb {a.gx} {b.gx})"}
                if type(o) in m: return V('bool',m[type(o)])
            fail(n,f"compare {a.ty} {b.ty}")
        if isinstance(n, ast.IfExp):
            c=self.ex(n.test,env)
            if c.ty=='sbool': return self.ex(n.body if c.gx else n.orelse,env)
            a=self.ex(n.body,env); b=self.ex(n.orelse,env)
            if c.ty=='bool' and a.ty==b.ty: return V(a.ty,f"(if {c.gx} then {a.gx} else {b.gx})")
            fail(n)
        if isinstance(n, ast.Subscript):
            s=ast.unparse(n.slice).strip('()')
            base=self.ex(n.value,env)
            if base.ty=='vec3' and s in (':, 0',':, 1',':, 2'): return num(f"(nth3 {base.gx} {s[-1]}%nat)")
            if base.ty=='perm3' and s==':, ::-1': return V('perm3',f"(rev3 {base.gx})")
            if base.ty=='num' and s==':, None': return V('colnum',base.gx)
            # gather idiom: evals[np.arange(evals.shape[0])[:, None], sort_i]
            if base.ty=='vec3' and isinstance(n.slice,ast.Tuple) and len(n.slice.elts)==2 and ast.unparse(n.slice.elts[0]).startswith('np.arange(') and ast.unparse(n.slice.elts[0]).endswith('[:, None]'):
                p=self.ex(n.slice.elts[1],env)
                if p.ty=='perm3': return V('vec3',f"(gather3 {base.gx} {p.gx})")
            fail(n,f"subscript {base.ty}[{s}]")
        if isinstance(n, ast.Call):
            f=ast.unparse(n.func); kw={k.arg:k.value for k in n.keywords}
            args=n.args
            def axis(v): return ast.unparse(kw.get('axis',ast.Constant(None)))
            if f=='np.array' and len(args)==1:
                if isinstance(args[0],ast.List) and len(args[0].elts)==3:
                    es=[self.ex(e,env) for e in args[0].elts]
                    if all(e.ty=='num' for e in es): return V('vec3',f"({es[0].gx}, {es[1].gx}, {es[2].gx})")
                return self.ex(args[0],env)
            if f=='np.average' and axis(0)=='1':
                v=self.ex(args[0],env)
                if v.ty=='vec3': return num(f"(avg3 {v.gx})")
            if f=='np.median' and axis(0)=='1':
                v=self.ex(args[0],env)
                if v.ty=='vec3': return num(f"(median3 {v.gx})")
            if f in ('np.amax','np.amin') and axis(0)=='-1':
                v=self.ex(args[0],env)
                if v.ty=='vec3': return num(f"({'max3' if f=='np.amax' else 'min3'} {v.gx})")
            if f=='np.abs':
                v=self.ex(args[0],env)
                if v.ty=='vec3': return V('vec3',f"(abs3 {v.gx})")
                if v.ty=='num': return num(f"(absn {v.gx})")
            if f=='np.argsort' and axis(0)=='1':
                v=self.ex(args[0],env)
                if v.ty=='vec3': return V('perm3',f"(argsort3 {v.gx})")
            if f=='np.where' and len(args)==3:
                c=self.ex(args[0],env); a=self.ex(args[1],env); b=self.ex(args[2],env)
                if c.ty=='bool' and a.ty=='inf' and b.ty=='num': return V('optnum',f"(if {c.gx} then Inf else Fin {b.gx})")
            if f in self.funcs:   # call to another translated function, static kwargs specialised
                pnames=[a.arg for a in self.funcs[f].args.args]
                st={k:self.ex(v,env) for k,v in kw.items()}
                for pn,a in zip(pnames,args): st[pn]=self.ex(a,env)
                stat={k:v.gx for k,v in st.items() if v.ty in('sbool','str')}
                stat={k:stat[k] for k in pnames if k in stat}
                name=self.emit(f, stat)
                vs=[st[pn] for pn in pnames if pn in st and pn not in stat]
                rty=self.done[name]
                return V(rty,f"({name} {' '.join(v.gx for v in vs)})")
            fail(n,"call")
        fail(n)
    # ---------- statements; returns ('ret', V) or env
    def assigned(self, body):
        s=[]
        for st in body:
            for t in ast.walk(st):
                if isinstance(t,(ast.Assign,ast.AugAssign)):
                    for tg in (t.targets if isinstance(t,ast.Assign) else [t.target]):
                        for nm in ast.walk(tg):
                            if isinstance(nm,ast.Name) and nm.id not in s: s.append(nm.id)
        return s
    def block(self, body, env, k):
        """translate statements; k(env) produces the Gallina for 'the rest'. returns (ty, gallina)"""
        if not body: return k(env)
        st,rest=body[0],body[1:]
        cont=lambda e: self.block(rest,e,k)
        if isinstance(st,ast.Expr) and isinstance(st.value,ast.Constant): return cont(env)   # docstring
        if isinstance(st,ast.Expr) and ast.unparse(st.value).startswith('warnings.warn('): return cont(env)
        if isinstance(st,ast.Return):
            if isinstance(st.value,ast.Tuple):
                vs=[self.ex(e,env) for e in st.value.elts]
                return ('*'.join(v.ty for v in vs), "("+", ".join(v.gx for v in vs)+")")
            v=self.ex(st.value,env)
            if v.ty=='rows':
                if any(r is None for r in v.gx): fail(st,'unfilled table row')
                return ('list vec3',"[ "+";\n    ".join(v.gx)+" ]")
            return (v.ty,v.gx)
        if isinstance(st,ast.Raise): return ('ERR',None)
        if isinstance(st,ast.Assign) and len(st.targets)==1:
            tg=st.targets[0]
            # tuple swap idiom on perm columns
            if ast.unparse(st)== 'sort_i[:, 0], sort_i[:, 1] = (sort_i[:, 1], sort_i[:, 0].copy())':
                v=env['sort_i']; e=dict(env); x=f"p{next(self.fresh)}"; e['sort_i']=V('perm3',x)
                ty,g=cont(e); return (ty,f"let {x} := swap01 {v.gx} in\n  {g}")
            # table idioms:  T = np.zeros((K,3));  T[k] = [..] / T[k,:] = [..];  masked wrap
            if isinstance(tg,ast.Name) and ast.unparse(st.value).startswith('np.zeros((') and ast.unparse(st.value).endswith(', 3))'):
                K=int(ast.unparse(st.value)[len('np.zeros(('):-len(', 3))')]); e=dict(env); e[tg.id]=V('rows',[None]*K); return cont(e)
            if isinstance(tg,ast.Subscript) and isinstance(tg.value,ast.Name) and tg.value.id in env and env[tg.value.id].ty=='rows':
                T=env[tg.value.id]; sl=ast.unparse(tg.slice).strip('()')
                if sl.replace(', :','').isdigit() and isinstance(st.value,ast.List) and len(st.value.elts)==3:
                    k=int(sl.replace(', :','')); es=[self.ex(x,env) for x in st.value.elts]
                    if not all(x.ty=='num' for x in es): fail(st,'row entries')
                    rows=list(T.gx); rows[k]=f"({es[0].gx}, {es[1].gx}, {es[2].gx})"; e=dict(env); e[tg.value.id]=V('rows',rows); return cont(e)
                nm=tg.value.id
                for cmpop,fn in ((f'{nm} < 0','wrap_neg'),(f'{nm} >= 2 * np.pi','wrap_ge')):
                    if sl==cmpop and ast.unparse(st.value)==f'{nm}[{cmpop}] % (2 * np.pi)':
                        rows=[f"({fn} {r})" for r in T.gx]; e=dict(env); e[nm]=V('rows',rows); return cont(e)
                fail(st,'table assignment')
            if isinstance(tg,ast.Name):
                v=self.ex(st.value,env)
                if v.ty in('sbool','str'): e=dict(env); e[tg.id]=v; return cont(e)
                x=f"{tg.id}{next(self.fresh)}"; e=dict(env); e[tg.id]=V(v.ty,x)
                ty,g=cont(e); return (ty,f"let {x} := {v.gx} in\n  {g}")
            if isinstance(tg,ast.Tuple) and all(isinstance(t,ast.Name) for t in tg.elts):
                v=self.ex(st.value,env)
                if v.ty=='vec3' and len(tg.elts)==3:
                    xs=[f"{t.id}{next(self.fresh)}" for t in tg.elts]; e=dict(env)
                    for t,x in zip(tg.elts,xs): e[t.id]=num(x)
                    ty,g=cont(e); return (ty,f"let '({xs[0]}, {xs[1]}, {xs[2]}) := {v.gx} in\n  {g}")
            fail(st,"assign")
        if isinstance(st,ast.If):
            c=self.ex(st.test,env) if not ast.unparse(st.test).startswith('np.any(') else None
            if c is None:
                if all(isinstance(b,ast.Expr) and ast.unparse(b.value).startswith('warnings.warn(') for b in st.body) and not st.orelse: return cont(env)
                fail(st,"np.any guard with effects")
            if c.ty=='sbool': return self.block((st.body if c.gx else st.orelse)+rest,env,k)
            if c.ty=='bool':
                # returns inside branches not supported in dynamic ifs
                if any(isinstance(x,ast.Return) for b in (st.body,st.orelse) for s2 in b for x in ast.walk(s2)): fail(st,"return in dynamic if")
                vs=[v for v in self.assigned(st.body+st.orelse) if v in env]
                def branch(b):
                    ty,g=self.block(b,env,lambda e:('tuple',"("+", ".join(e[v].gx for v in vs)+")")); return g
                xs=[f"{v}{next(self.fresh)}" for v in vs]; e=dict(env)
                for v,x in zip(vs,xs): e[v]=V(env[v].ty,x)
                ty,g=cont(e)
                pat="'("+", ".join(xs)+")" if len(xs)>1 else xs[0]
                return (ty,f"let {pat} :=\n    (if {c.gx}\n     then {branch(st.body)}\n     else {branch(st.orelse)}) in\n  {g}")
            fail(st,"if")
        fail(st)
    def emit(self, fname, stat):
        key=fname.lstrip('_')+''.join('_'+str(v) for v in stat.values())
        if key in self.done: return key
        fn=self.funcs[fname]; env={}; params=[]
        defaults=dict(zip([a.arg for a in fn.args.args][-len(fn.args.defaults):] if fn.args.defaults else [],fn.args.defaults))
        for a in fn.args.args:
            if a.arg in stat:
                v=stat[a.arg]; env[a.arg]=V('sbool' if isinstance(v,bool) else 'str',v)
            elif a.arg in self.static.get(fname,{}).get('_dyn',{}):
                ty=self.static[fname]['_dyn'][a.arg]; env[a.arg]=V(ty,a.arg); params.append((a.arg,ty))
            elif a.arg in defaults and isinstance(defaults[a.arg],ast.Constant) and isinstance(defaults[a.arg].value,(bool,str)):
                env[a.arg]=self.ex(defaults[a.arg],{})
            else: fail(fn,f"untyped param {a.arg}")
        self.done[key]=None
        ty,g=self.block(fn.body,env,lambda e: fail(fn,"fell off the end"))
        self.done[key]=ty
        tymap={'list vec3':'list vec3','num':'num','vec3':'vec3','perm3':'perm3','bool':'bool','vec3*perm3':'(vec3 * perm3)%type'}
        ps=' '.join(f"({p} : {tymap[t]})" for p,t in params)
        if ty=='ERR': self.out.append(f"(* {key}: raises for these static arguments *)"); return key
        self.out.append(f"Definition {key} {ps} : {tymap.get(ty,ty)} :=\n  {g}.\n")
        return key


STATIC={'_evals_sort':{'_dyn':{'evals':'vec3'}}, '_haeb_sort':{'_dyn':{'evals':'vec3'}},
        '_anisotropy':{'_dyn':{'haeb_evals':'vec3'}}, '_asymmetry':{'_dyn':{'haeb_evals':'vec3'}},
        '_span':{'_dyn':{'evals':'vec3'}}, '_skew':{'_dyn':{'evals':'vec3'}},
        '_normalise_euler_angles':{'_dyn':{'euler_angles':'vec3','passive':'bool','eps':'num'}},
        '_equivalent_euler':{'_dyn':{'euler_angles':'vec3'}}, '_equivalent_relative_euler':{'_dyn':{'euler_angles':'vec3'}}}

def generate(path):
    """Gallina text (a *Body.v, to be Load-ed under a carrier header) for the translated functions.
    Raises Unsupported (fail closed) on anything outside the grammar."""
    src=open(path).read(); tree=ast.parse(src)
    t=Tr(tree,STATIC)
    for c in 'idhn': t.emit('_evals_sort',{'convention':c,'return_indices':True})
    # an unknown convention must raise
    t.emit('_evals_sort',{'convention':'x','return_indices':True})
    if not any('evals_sort_x_True: raises' in o for o in t.out): raise Unsupported('unknown convention does not raise')
    t.emit('_haeb_sort',{'return_indices':True})
    for r in (False,True): t.emit('_anisotropy',{'reduced':r})
    t.emit('_asymmetry',{}); t.emit('_span',{}); t.emit('_skew',{})
    t.emit('_normalise_euler_angles',{})
    for pv in (False,True):
        t.emit('_equivalent_euler',{'passive':pv}); t.emit('_equivalent_relative_euler',{'passive':pv})
    return "(* GENERATED by tools/py2v/nmr_utils.py from soprano/nmr/utils.py -- do not edit *)\n"+"\n".join(t.out)

if __name__=='__main__':
    print(generate(sys.argv[1]))
