#!/bin/bash
# run every claimed check on the CLEAN tree in the thorough tier, one after the other, with wall times
cd /verif
if [ -n "$(git -C /repo status --porcelain)" ]; then echo "/repo is dirty"; exit 2; fi
rc=0
for id in $(/venv/bin/python -c "import json;print(' '.join(c['property_id'] for c in json.load(open('MANIFEST.json'))['checks']))"); do
  if [ -n "$1" ] && [[ ! " $* " =~ " $id " ]]; then continue; fi
  t0=$(date +%s)
  out=$(timeout 7200 ./check $id --tier thorough 2>&1); r=$?
  echo "$out" | grep -E "^\[$id\] tier|VIOLATION|obligation FAILED" | cut -c1-300
  echo "   $id rc=$r $(( $(date +%s) - t0 ))s"
  if [ $r -ne 0 ]; then rc=1; fi
done
exit $rc
