From Coq Require Import Reals Lra Psatz.
Open Scope R_scope.
Definition num := R. Definition of_Z (z:Z) : R := IZR z.
Definition leb (x y:R) : bool := if Rle_dec x y then true else false.
Definition ltb (x y:R) : bool := if Rlt_dec x y then true else false.
Definition eqb (x y:R) : bool := if Req_EM_T x y then true else false.
Definition absn := Rabs. Definition PIn : R := PI.
Definition modn (x m:R) : R := x - m * IZR (Int_part (x / m)).
Load VecBody. Load GenBody.
Lemma leb_t a b : leb a b = true -> a <= b. Proof. unfold leb; destruct Rle_dec; congruence. Qed.
Lemma leb_f a b : leb a b = false -> b < a. Proof. unfold leb; destruct Rle_dec; [congruence|lra]. Qed.
Lemma eqb_t a b : eqb a b = true -> a = b. Proof. unfold eqb; destruct Req_EM_T; congruence. Qed.
Lemma eqb_f a b : eqb a b = false -> a <> b. Proof. unfold eqb; destruct Req_EM_T; congruence. Qed.
Ltac bools := repeat match goal with
  | H: leb _ _ = true |- _ => apply leb_t in H | H: leb _ _ = false |- _ => apply leb_f in H
  | H: eqb _ _ = true |- _ => apply eqb_t in H | H: eqb _ _ = false |- _ => apply eqb_f in H end.
(* ---- C01: Haeberlen order of the GENERATED definition ---- *)
Theorem sort_haeb e0 e1 e2 : let '(x,y,z) := fst (evals_sort_h_True (e0,e1,e2)) in
   let m := avg3 (e0,e1,e2) in Rabs (y-m) <= Rabs (x-m) <= Rabs (z-m).
Proof.
  unfold evals_sort_h_True, argsort3, abs3, sub3s, absn, swap01, gather3, nth3. cbn [fst].
  set (m := avg3 (e0,e1,e2)).
  destruct (leb (Rabs (e0-m)) (Rabs (e1-m))) eqn:A; destruct (leb (Rabs (e1-m)) (Rabs (e2-m))) eqn:B;
  destruct (leb (Rabs (e0-m)) (Rabs (e2-m))) eqn:C; cbn; bools; subst m; unfold avg3, of_Z in *; lra.
Qed.
(* ---- C02: eta in [0,1] for the GENERATED asymmetry composed with the GENERATED sort ---- *)
Lemma eta_core x y z : let m := (x+y+z)/3 in Rabs (y-m) <= Rabs (x-m) <= Rabs (z-m) ->
  let d := (z - (x+y)/2) * (2/3) in d <> 0 -> 0 <= (y-x)/d <= 1.
Proof. intros m [H1 H2] d Hd. assert (E: (y-x)/d*d = y-x) by (field; exact Hd).
  unfold d, m in *. unfold Rabs in *. repeat destruct Rcase_abs; nra. Qed.
Theorem eta_range e0 e1 e2 : 0 <= asymmetry (fst (evals_sort_h_True (e0,e1,e2))) <= 1.
Proof.
  (* the sorted triple is a permutation of the input, so its mean is the same *)
  assert (P: let '(x,y,z) := fst (evals_sort_h_True (e0,e1,e2)) in x+y+z = e0+e1+e2).
  { unfold evals_sort_h_True, argsort3, abs3, sub3s, swap01, gather3, nth3. cbn [fst].
    repeat (destruct (leb _ _)); cbn; lra. }
  pose proof (sort_haeb e0 e1 e2) as H. destruct (fst (evals_sort_h_True (e0,e1,e2))) as [[x y] z].
  cbv zeta in H. unfold avg3 in H. unfold of_Z in H. rewrite <- P in H.
  unfold asymmetry, anisotropy_True, nth3.
  destruct (eqb _ _) eqn:E; cbn [div_opt]; bools; unfold of_Z in *.
  - lra.
  - apply (eta_core x y z H). exact E.
Qed.
Print Assumptions sort_haeb.
