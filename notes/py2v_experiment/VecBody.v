Definition vec3 := (num * num * num)%type.
Definition perm3 := (nat * nat * nat)%type.
Inductive optnum := Inf | Fin (x:num).
Definition div_opt (a:num) (d:optnum) : num := match d with Inf => of_Z 0 | Fin x => a / x end.
Definition nth3 (v:vec3) (i:nat) : num := let '(a,b,c) := v in match i with 0%nat => a | 1%nat => b | _ => c end.
Definition avg3 (v:vec3) : num := let '(a,b,c) := v in (a+b+c) / of_Z 3.
Definition abs3 (v:vec3) : vec3 := let '(a,b,c) := v in (absn a, absn b, absn c).
Definition sub3s (v:vec3) (s:num) : vec3 := let '(a,b,c) := v in (a-s, b-s, c-s).
Definition argsort3 (v:vec3) : perm3 := let '(k0,k1,k2) := v in
  if leb k0 k1 then (if leb k1 k2 then (0,1,2) else if leb k0 k2 then (0,2,1) else (2,0,1))%nat
  else (if leb k0 k2 then (1,0,2) else if leb k1 k2 then (1,2,0) else (2,1,0))%nat.
Definition rev3 (p:perm3) : perm3 := let '(i,j,k) := p in (k,j,i).
Definition swap01 (p:perm3) : perm3 := let '(i,j,k) := p in (j,i,k).
Definition gather3 (v:vec3) (p:perm3) : vec3 := let '(i,j,k) := p in (nth3 v i, nth3 v j, nth3 v k).
Definition max2 a b := if leb a b then b else a. Definition min2 a b := if leb a b then a else b.
Definition max3 (v:vec3) := let '(a,b,c) := v in max2 (max2 a b) c.
Definition min3 (v:vec3) := let '(a,b,c) := v in min2 (min2 a b) c.
Definition median3 (v:vec3) := nth3 v (let '(_,j,_) := argsort3 v in j).
