(* lemma statements generated from a numeric search of the flip pair for each row *)
Lemma rel_row0 a b c : rot3 (nth 0 (equivalent_relative_euler_False (a,b,c)) (0,0,0)) = mmul (mmul (dg I) (rot a b c)) (dg I). Proof. tabrow. Qed.
Lemma rel_row1 a b c : rot3 (nth 1 (equivalent_relative_euler_False (a,b,c)) (0,0,0)) = mmul (mmul (dg I) (rot a b c)) (dg Dx). Proof. tabrow. Qed.
Lemma rel_row2 a b c : rot3 (nth 2 (equivalent_relative_euler_False (a,b,c)) (0,0,0)) = mmul (mmul (dg I) (rot a b c)) (dg Dy). Proof. tabrow. Qed.
Lemma rel_row3 a b c : rot3 (nth 3 (equivalent_relative_euler_False (a,b,c)) (0,0,0)) = mmul (mmul (dg I) (rot a b c)) (dg Dz). Proof. tabrow. Qed.
Lemma rel_row4 a b c : rot3 (nth 4 (equivalent_relative_euler_False (a,b,c)) (0,0,0)) = mmul (mmul (dg Dx) (rot a b c)) (dg I). Proof. tabrow. Qed.
Lemma rel_row5 a b c : rot3 (nth 5 (equivalent_relative_euler_False (a,b,c)) (0,0,0)) = mmul (mmul (dg Dx) (rot a b c)) (dg Dx). Proof. tabrow. Qed.
Lemma rel_row6 a b c : rot3 (nth 6 (equivalent_relative_euler_False (a,b,c)) (0,0,0)) = mmul (mmul (dg Dx) (rot a b c)) (dg Dy). Proof. tabrow. Qed.
Lemma rel_row7 a b c : rot3 (nth 7 (equivalent_relative_euler_False (a,b,c)) (0,0,0)) = mmul (mmul (dg Dx) (rot a b c)) (dg Dz). Proof. tabrow. Qed.
Lemma rel_row8 a b c : rot3 (nth 8 (equivalent_relative_euler_False (a,b,c)) (0,0,0)) = mmul (mmul (dg Dy) (rot a b c)) (dg I). Proof. tabrow. Qed.
Lemma rel_row9 a b c : rot3 (nth 9 (equivalent_relative_euler_False (a,b,c)) (0,0,0)) = mmul (mmul (dg Dy) (rot a b c)) (dg Dx). Proof. tabrow. Qed.
Lemma rel_row10 a b c : rot3 (nth 10 (equivalent_relative_euler_False (a,b,c)) (0,0,0)) = mmul (mmul (dg Dy) (rot a b c)) (dg Dy). Proof. tabrow. Qed.
Lemma rel_row11 a b c : rot3 (nth 11 (equivalent_relative_euler_False (a,b,c)) (0,0,0)) = mmul (mmul (dg Dy) (rot a b c)) (dg Dz). Proof. tabrow. Qed.
Lemma rel_row12 a b c : rot3 (nth 12 (equivalent_relative_euler_False (a,b,c)) (0,0,0)) = mmul (mmul (dg Dz) (rot a b c)) (dg I). Proof. tabrow. Qed.
Lemma rel_row13 a b c : rot3 (nth 13 (equivalent_relative_euler_False (a,b,c)) (0,0,0)) = mmul (mmul (dg Dz) (rot a b c)) (dg Dx). Proof. tabrow. Qed.
Lemma rel_row14 a b c : rot3 (nth 14 (equivalent_relative_euler_False (a,b,c)) (0,0,0)) = mmul (mmul (dg Dz) (rot a b c)) (dg Dy). Proof. tabrow. Qed.
Lemma rel_row15 a b c : rot3 (nth 15 (equivalent_relative_euler_False (a,b,c)) (0,0,0)) = mmul (mmul (dg Dz) (rot a b c)) (dg Dz). Proof. tabrow. Qed.
Lemma eq_row0 a b c : rot3 (nth 0 (equivalent_euler_False (a,b,c)) (0,0,0)) = mmul (rot a b c) (dg I). Proof. tabrow. Qed.
Lemma eq_row1 a b c : rot3 (nth 1 (equivalent_euler_False (a,b,c)) (0,0,0)) = mmul (rot a b c) (dg Dz). Proof. tabrow. Qed.
Lemma eq_row2 a b c : rot3 (nth 2 (equivalent_euler_False (a,b,c)) (0,0,0)) = mmul (rot a b c) (dg Dy). Proof. tabrow. Qed.
Lemma eq_row3 a b c : rot3 (nth 3 (equivalent_euler_False (a,b,c)) (0,0,0)) = mmul (rot a b c) (dg Dx). Proof. tabrow. Qed.
(* the sixteen flip pairs are pairwise distinct: [('I', 'I'), ('I', 'Dx'), ('I', 'Dy'), ('I', 'Dz'), ('Dx', 'I'), ('Dx', 'Dx'), ('Dx', 'Dy'), ('Dx', 'Dz'), ('Dy', 'I'), ('Dy', 'Dx'), ('Dy', 'Dy'), ('Dy', 'Dz'), ('Dz', 'I'), ('Dz', 'Dx'), ('Dz', 'Dy'), ('Dz', 'Dz')] *)
