From Coq Require Import QArith Qabs Qround.
Open Scope Q_scope.
Definition num := Q. Definition of_Z (z:Z) : Q := inject_Z z.
Definition leb := Qle_bool. Definition ltb (a b:Q) := negb (Qle_bool b a). Definition eqb := Qeq_bool. Definition absn := Qabs.
Definition PIn : Q := 1.   (* angles in units of pi *)
Definition modn (x m:Q) : Q := x - m * inject_Z (Qfloor (x / m)).
Load VecBody. Load GenBody.
Definition show (v:vec3) := let '(a,b,c) := v in (Qred a, Qred b, Qred c).
Eval vm_compute in (let '(v,p) := evals_sort_h_True (1, -5#2, 7#3) in (show v, p)).
Eval vm_compute in (let '(v,p) := evals_sort_n_True (-1, 0, 1) in (show v, p)).
Eval vm_compute in Qred (asymmetry (fst (evals_sort_h_True (1, -5#2, 7#3)))).
Eval vm_compute in Qred (skew (3, 3, 3)).
Eval vm_compute in show (normalise_euler_angles (7#4, 3#4, -1#3) false 0).
Eval vm_compute in show (normalise_euler_angles (7#4, 3#4, -1#3) true 0).
