import sys, os, signal, time, tempfile, shutil, pickle
from soprano.hpc.submitter import Submitter, QueueInterface
import soprano.hpc.submitter.submit as submod
class FakeQ(QueueInterface):
    def __init__(self, lifetimes):
        super().__init__('sub','list','kill','(?P<job_id>x)','(?P<job_id>x)')
        self.lifetimes=list(lifetimes); self.q={}; self.n=0; self.ev=[]
    def set_remote_host(self,host=None,timeout=1.0): self._rTarg=None
    def submit(self,script,cwd=None):
        self.n+=1; jid=str(self.n); self.q[jid]=self.lifetimes.pop(0) if self.lifetimes else 0
        self.ev.append(('submit',jid,script.strip())); return jid
    def list(self,user='$USER'):
        out={j:{} for j,l in self.q.items() if l>0}
        for j in list(self.q): self.q[j]-=1
        return out
    def kill(self,jid): self.ev.append(('kill',jid)); self.q.pop(jid,None)
class S(Submitter):
    def next_job(self):
        if not self.stream:
            if not self._jobs and not self._waiting_jobs: self._running=False; self.natural=True
            return None
        n,ok=self.stream.pop(0); return {'name':n,'args':{'ok':ok}}
    def setup_job(self,name,args,folder): self.queue.ev.append(('setup',name,args['ok'])); return args['ok']
    def finish_job(self,name,args,folder): self.queue.ev.append(('finish',name,os.path.isdir(folder)))
    def save_state(self): return {'stream':self.stream}
    def load_state(self,d): self.stream=d['stream']
submod.time.sleep=lambda s: None
def run(jobs,lifetimes,max_jobs,stop_at,cont):
    d=tempfile.mkdtemp(); os.chdir(d); tmp=os.path.join(d,'tmp'); os.mkdir(tmp)
    q=FakeQ(lifetimes); ev=q.ev
    s=S('t',q,'<name>',max_jobs=max_jobs,check_time=0,max_time=0,temp_folder=tmp,continuation=cont); s.stream=list(jobs); s.natural=False
    cnt=[0]; code=Submitter._main_loop.__code__
    def tracer(frame,event,arg):
        if frame.f_code is code:
            if event=='line':
                cnt[0]+=1
                if cnt[0]==stop_at: s._catch_signal(signal.SIGTERM,frame)
            return tracer
        return None
    sys.settrace(tracer); err=None
    try: s.start()
    except BaseException as e: err=repr(e)
    finally: sys.settrace(None)
    n=cnt[0]
    if cont and err is None and not s.natural:
        # restart
        s2=S('t',q,'<name>',max_jobs=max_jobs,check_time=0,max_time=0,temp_folder=tmp,continuation=True); s2.stream=[]; s2.natural=False
        try: s2.start()
        except BaseException as e: err='restart:'+repr(e)
    left=os.listdir(tmp); os.chdir('/'); shutil.rmtree(d)
    return ev,left,err,n
import itertools
jobs=[('a',True),('b',False),('c',True),('d',True)]
passing=[n for n,ok in jobs if ok]
tot=bad=0; ex=[]
for cont in (False,True):
  for mj in (1,2):
    for lt in itertools.product((0,1,2),repeat=3):
        ev,left,err,n=run(jobs,lt,mj,None,cont)
        for k in [None]+list(range(1,n+1)):
            ev,left,err,_=run(jobs,lt,mj,k,cont); tot+=1
            sub=[e[2] for e in ev if e[0]=='submit']; fin=[e[1] for e in ev if e[0]=='finish']
            ok = err is None and not left and len(set(sub))==len(sub) and len(set(fin))==len(fin) and set(fin)==set(sub)
            if cont or k is None: ok = ok and sorted(fin)==sorted(passing)
            if not ok:
                bad+=1
                if len(ex)<5: ex.append((cont,mj,lt,k,err,left,sub,fin))
print('runs',tot,'bad',bad); [print(e) for e in ex]
